# Property: C19
#
# Sentence concerned:
#   "PreemptiveResource additionally evicts the worst current user for a strictly better
#    PREEMPTING request"  /  Range: "every history of put/get/request/release/cancel
#    operations with arbitrary amounts, priorities ... against every resource type and capacity"
#
# This is an API gap rather than a wrong grant: the property distinguishes preempting from
# non-preempting requests (PriorityRequest has `preempt`, its key is
# (priority, time, not preempt), PreemptiveResource._do_put honours `event.preempt`), but the
# public way to issue one does not exist:
#   - PreemptiveResource.request is inherited from PriorityResource.request(self, priority=0),
#     so `res.request(priority=1, preempt=False)` - the SimPy v4 signature
#     `request(priority=0, preempt=True)` - raises TypeError.  A non-preempting request can only
#     be made by instantiating usim.py.resources.resource.PriorityRequest by hand.
#   - `PreemptiveResource(env)` raises TypeError (capacity has no default) although
#     docs/source/api/usim.py.rst documents `PreemptiveResource(env, capacity=1)` and SimPy
#     defaults to 1.
# Expected: both calls work (docs: "recreates the v4 API of the simpy package ... drop-in
# replacement").   Observed: TypeError for both.
# When built by hand (PriorityRequest(res, prio, preempt=False)) the grant/preemption logic
# itself behaved correctly in all histories I tried (see the control below).
#
# Confidence: high that both are defects against the documented API; they are violations of
# C19 only in the sense that part of its range cannot be expressed through the public API.
import sys; sys.path.insert(0, '/tmp/hunt5')
import faulthandler; faulthandler.dump_traceback_later(25, exit=True)
import usim
assert usim.__file__.startswith('/tmp/hunt5')
from usim.py import Environment, Interrupt
from usim.py.resources.resource import PreemptiveResource, PriorityRequest

env = Environment()
try:
    res = PreemptiveResource(env)
    print('PreemptiveResource(env): ok, capacity', res.capacity)
except TypeError as err:
    print('PreemptiveResource(env): VIOLATION', err)

res = PreemptiveResource(env, 1)
try:
    res.request(priority=1, preempt=False)
    print('request(priority=1, preempt=False): ok')
except TypeError as err:
    print('request(priority=1, preempt=False): VIOLATION', err)

# control: the logic works for hand-made requests
env = Environment()
res = PreemptiveResource(env, 1)
log = []


def user(name, prio, preempt, start, hold):
    yield env.timeout(start)
    req = PriorityRequest(res, prio, preempt)
    try:
        yield req
        log.append((env.now, name, 'granted'))
        yield env.timeout(hold)
    except Interrupt as itr:
        log.append((env.now, name, 'preempted, usage_since', itr.cause.usage_since))
    res.release(req)


env.process(user('low', 5, True, 0, 10))
env.process(user('better-but-polite', 1, False, 1, 1))
env.process(user('better-preempting', 2, True, 2, 1))
env.run()
print('control (hand-made PriorityRequest):', log)
print('  note: the preempting prio-2 request does not evict the prio-5 user because the better,')
print('  non-preempting prio-1 request is ahead of it in the queue (head-of-line, same as SimPy;')
print('  consistent with "granted in request order by (priority, time)").')
