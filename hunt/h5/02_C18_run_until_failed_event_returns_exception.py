# Property: C18
#
# Violated sentence:
#   "`env.run(until=...)` stops exactly at the given time or event and returns its value, an
#    unhandled failed event ends the run with that exception"
#
# Scenario: env.run(until=ev) where `ev` (a plain Event, or a Process) FAILS and nobody handles
# the failure.
#
# Expected (SimPy: StopSimulation.callback does `raise event._value` for a failed until-event):
# run() raises the exception of the failed event.
#
# Observed: run() returns normally and hands back the exception INSTANCE as if it were the
# event's value; the failure of the event is never raised anywhere (the body of
# Environment.until wakes on the event's flag before the event's defuse check runs, raises
# StopSimulation and closes the scope including the pending check).
# Embedded, `await env.until(ev)` swallows the failure completely (returns None).
#
# Doc check: the docstring of Environment.run only says "The sub-simulation lasts until the
# event is triggered"; the return annotation is `Union[None, V, Exception]`, which hints that
# the author was aware that an exception object may be returned. No test covers it. The docs
# advertise a drop-in replacement for SimPy v4, where this raises.
# Confidence: medium (clear divergence from the stated property and SimPy, but possibly a
# conscious shortcut given the annotation).
import sys; sys.path.insert(0, '/tmp/hunt5')
import faulthandler; faulthandler.dump_traceback_later(25, exit=True)
import usim
assert usim.__file__.startswith('/tmp/hunt5')
from usim.py import Environment
from usim import run as usim_run, time


def plain_event():
    env = Environment()
    ev = env.event()

    def trigger():
        yield env.timeout(1)
        ev.fail(KeyError('until-event failed'))

    env.process(trigger())
    try:
        result = env.run(until=ev)
        print('event  : VIOLATION run returned %r at now=%s (expected: raise KeyError)'
              % (result, env.now))
    except KeyError as err:
        print('event  : ok, run raised', repr(err))


def process_event():
    env = Environment()

    def failing():
        yield env.timeout(2)
        raise ValueError('process failed')

    proc = env.process(failing())
    try:
        result = env.run(until=proc)
        print('process: VIOLATION run returned %r at now=%s (expected: raise ValueError)'
              % (result, env.now))
    except ValueError as err:
        print('process: ok, run raised', repr(err))


def control_not_until():
    # the same failing process without until= does end the run with the exception
    env = Environment()

    def failing():
        yield env.timeout(2)
        raise ValueError('process failed')

    env.process(failing())
    try:
        env.run(until=10)
        print('control: run returned normally ?!')
    except ValueError as err:
        print('control: run(until=10) raised', repr(err), 'at now =', env.now)


def embedded():
    async def main():
        env = Environment()

        def failing():
            yield env.timeout(2)
            raise ValueError('process failed')

        proc = env.process(failing())
        result = await env.until(proc)
        print('embedded: VIOLATION `await env.until(proc)` returned %r at %s, failure swallowed'
              % (result, time.now))
    try:
        usim_run(main())
    except BaseException as err:
        print('embedded: ok, raised', repr(err))


plain_event()
process_event()
control_not_until()
embedded()
