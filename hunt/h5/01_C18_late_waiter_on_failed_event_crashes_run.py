# Property: C18 (SimPy layer: events fire once; processes resume with the right value and time)
#
# Violated sentences:
#   "every process or activity waiting for it resumes at the virtual time of the trigger with
#    its value - or has its exception raised"
#   "an unhandled failed event ends the run with that exception"   (here the failure IS handled)
#   Range: "every trigger timing (including events that fired before they are waited for)"
#
# Scenario: an event (or a sub-process) fails at time t; LATER IN THE SAME TIME STEP a process
# yields it inside try/except (the event is `triggered` but not yet `processed`).
#
# Expected (and what SimPy does: the waiter registers in event.callbacks before the event is
# processed, gets the exception thrown in, which defuses the event): the waiter handles the
# exception at time t and the run continues / ends normally.
#
# Observed: env.run() is aborted by that very exception. The event's callback/defuse check
# (`Event._invoke_callbacks`) was queued when the event failed, whereas the late waiter first
# postpones inside `await (flag | interrupts)`; so the "unhandled failure" check runs before
# the waiter had a chance to set `defused`. The same happens for a Condition (`ev | other`,
# `env.all_of([...])`) built in that time step over the failed event.
#
# Variant B is the realistic form: `child = env.process(...)`, `yield env.timeout(0)`,
# `yield child` where the child raises in its first step.
#
# Confidence: high that this is a genuine defect (no doc says a failed event must be waited for
# before it fails; the success path for the identical timing works; docs promise a drop-in
# replacement of SimPy, where this is fine).
import sys; sys.path.insert(0, '/tmp/hunt5')
import faulthandler; faulthandler.dump_traceback_later(25, exit=True)
import usim
assert usim.__file__.startswith('/tmp/hunt5')
from usim.py import Environment


def variant_a():
    env = Environment()
    log = []
    ev = env.event()

    def trigger():
        yield env.timeout(1)
        ev.fail(KeyError('late'))

    def waiter():
        yield env.timeout(1)        # resumes at t=1 right after `trigger`
        log.append(('waiter yields ev: triggered=%s processed=%s' % (ev.triggered, ev.processed)))
        try:
            yield ev
        except KeyError as err:
            log.append(('handled', err.args, env.now))
        yield env.timeout(1)
        log.append(('waiter done', env.now))

    env.process(trigger())
    env.process(waiter())
    try:
        env.run()
        print('A: run ended normally:', log)
    except KeyError as err:
        print('A: VIOLATION run aborted by', repr(err), 'log:', log)


def variant_a_success():
    # control: identical timing with succeed() works
    env = Environment()
    log = []
    ev = env.event()

    def trigger():
        yield env.timeout(1)
        ev.succeed('value')

    def waiter():
        yield env.timeout(1)
        value = yield ev
        log.append((value, env.now))

    env.process(trigger())
    env.process(waiter())
    env.run()
    print('A(control, succeed): ', log)


def variant_b():
    env = Environment()
    log = []

    def child():
        raise KeyError('child failed in its first step')
        yield

    def parent():
        c = env.process(child())
        yield env.timeout(0)
        try:
            yield c
        except KeyError as err:
            log.append(('handled', err.args, env.now))

    env.process(parent())
    try:
        env.run()
        print('B: run ended normally:', log)
    except KeyError as err:
        print('B: VIOLATION run aborted by', repr(err), 'log:', log)


def variant_c():
    env = Environment()
    log = []
    ev, other = env.event(), env.event()

    def trigger():
        yield env.timeout(1)
        ev.fail(KeyError('late'))

    def waiter():
        yield env.timeout(1)
        try:
            yield ev | other
        except KeyError as err:
            log.append(('handled', err.args, env.now))

    env.process(trigger())
    env.process(waiter())
    try:
        env.run()
        print('C: run ended normally:', log)
    except KeyError as err:
        print('C: VIOLATION run aborted by', repr(err), 'log:', log)


variant_a_success()
variant_a()
variant_b()
variant_c()
