# Property: C18
#
# Violated sentence:
#   "an event is triggered at most once (a second trigger is an error), every process ...
#    resumes ... with its value ... and its callbacks run exactly once"
#
# Scenario: run with `python -O`.  An event is triggered with succeed('first') and then, in the
# same time step, triggered again through the public method Event.trigger(other_event).
# succeed()/fail() guard against re-triggering with an explicit `raise RuntimeError`, but
# trigger() guards only with `assert self._value is None`, which -O strips.
#
# Expected: the second trigger is an error at the call; waiter and callbacks see 'first'.
# Observed under -O: no error at the call; the value is overwritten, the waiting process
# resumes with 'second', the callbacks see 'second', and the run later dies with an unrelated
# `TypeError: 'NoneType' object is not iterable` from the second, duplicate _invoke_callbacks
# (whose own guard is also only an assert).
# Without -O the script prints the AssertionError (= an error, property holds).
#
# Doc check: the docstring of Event.trigger says "This method is invoked internally when running
# callbacks. Avoid using it manually." It is the SimPy idiom to chain events,
# `head.callbacks.append(tail.trigger)` (used like that in usim_pytest test_callbacks); with that
# idiom the duplicate trigger arrives one scheduling hop later, so the waiter still sees 'first',
# but tail.value is silently replaced afterwards and the run dies with the same TypeError.
# Confidence: low-medium (only under -O, and via a method the docs discourage calling by hand).
#
# Run:  timeout 30 /venv/bin/python -O 05_C18_second_trigger_accepted_under_python_O.py
import sys; sys.path.insert(0, '/tmp/hunt5')
import faulthandler; faulthandler.dump_traceback_later(25, exit=True)
import usim
if not usim.__file__.startswith('/tmp/hunt5'):
    raise SystemExit('wrong usim: ' + usim.__file__)
from usim.py import Environment

print('python -O active:', not __debug__)
env = Environment()
log = []
event = env.event()
other = env.event()
event.callbacks.append(lambda ev: log.append(('callback sees', ev.value)))


def waiter():
    value = yield event
    log.append(('waiter resumed with', value, 'at', env.now))


def trigger():
    yield env.timeout(1)
    other.succeed('second')
    event.succeed('first')
    try:
        event.trigger(other)             # second trigger of `event`
        log.append('second trigger: NO error at the call')
    except BaseException as err:
        log.append(('second trigger: error at the call', type(err).__name__))


env.process(waiter())
env.process(trigger())
try:
    env.run()
    log.append('run ended normally')
except BaseException as err:
    log.append(('run raised', repr(err)))
for line in log:
    print(line)
if ('waiter resumed with', 'second', 'at', 1) in log:
    print("VIOLATION: second trigger was accepted and replaced the event's value")
