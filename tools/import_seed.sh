#!/bin/bash
# tools/import_seed.sh <worktree-name> <seed-id> <property> "<needs>"  : copy a sub-agent's result into seeded/<id>/
set -e
WT=/tmp/wt/$1; ID=$2; PROP=$3; NEEDS=$4
mkdir -p /verif/seeded/$ID
git -C $WT diff -- usim > /verif/seeded/$ID/patch.diff
cp $WT/_seed/demo.py /verif/seeded/$ID/demo.py
cp $WT/_seed/notes.md /verif/seeded/$ID/notes.md 2>/dev/null || true
python3 - "$ID" "$PROP" "$NEEDS" <<'PY'
import json, sys
ident, prop, needs = sys.argv[1:4]
json.dump({"property": prop, "needs": needs, "checks": [prop],
           "ran": "tools/seeded.py %s: pinned tests on a scratch copy with the patch, demo.py on clean and patched copy, ./check %s --tier quick with USIM_REPO=<patched copy>" % (ident, prop),
           "origin": "sub-agent given only the property text and a scratch worktree"},
          open("/verif/seeded/%s/meta.json" % ident, "w"), indent=1)
PY
wc -l /verif/seeded/$ID/patch.diff
