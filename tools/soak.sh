#!/bin/bash
# tools/soak.sh <seed> [scale]: every quick check under another VERIF_SEED (evidence and replays go to
# a scratch directory); prints one line per check; used to look for false alarms of new generators
seed=${1:-2}; scale=${2:-1}
out=${SOAK_DIR:-/tmp/soak.$seed}; mkdir -p $out
cd "$(dirname "$0")/.."
for c in C01 C02 C03 C04 C05 C06 C07 C08 C09 C10 C11 C12 C13 C14 C15 C16 C18 C19 C20; do
  VERIF_SEED=$seed VERIF_SCALE=$scale VERIF_EVIDENCE_DIR=$out/ev VERIF_REPLAY_DIR=$out/rp timeout 1500 ./check $c --tier quick > $out/$c.log 2>&1
  echo "seed=$seed $c exit=$? $(grep -c '^VIOLATION' $out/$c.log) violations; $(tail -1 $out/$c.log | cut -c1-120)"
  grep -A1 '^VIOLATION' $out/$c.log | head -6 | cut -c1-400
done
