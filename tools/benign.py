#!/usr/bin/env python3
"""False-alarm test: run every quick check against behaviour-preserving changes of usim.

benign/<name>.diff are refactorings written by sub-agents that were told to keep all twenty
properties (and the pinned tests) intact.  For each: scratch copy of /repo with the patch, the
pinned tests (must pass), every quick check with USIM_REPO pointing at the copy.  Expected:
exit 0 everywhere.  An exit 1 here is either a false alarm of the check (fix the check) or a
patch that is not benign after all (look at the replay; then it is a seeded breakage).

usage: tools/benign.py [name ...]   env BENIGN_SCALE (default 0.3), BENIGN_JOBS (default 4)"""
import os
import re
import sys
import json
import shutil
import tempfile
import subprocess
from concurrent.futures import ThreadPoolExecutor

VERIF = os.path.dirname(os.path.dirname(os.path.abspath(__file__)))
BENIGN = os.path.join(VERIF, "benign")
PROPS = ["C%02d" % n for n in range(1, 21) if n != 17]
SCALE = os.environ.get("BENIGN_SCALE", "0.3")


def sh(cmd, cwd=None, env=None, timeout=3600):
    proc = subprocess.run(cmd, cwd=cwd, env=env, capture_output=True, text=True, timeout=timeout,
                          shell=isinstance(cmd, str))
    return proc.returncode, proc.stdout + proc.stderr


def evaluate(name):
    patch = os.path.join(BENIGN, name + ".diff")
    root = tempfile.mkdtemp(prefix="benign.", dir="/tmp")
    row = {"name": name, "alarms": {}, "errors": {}}
    try:
        for item in ("usim", "usim_pytest", "pytest.ini", "setup.cfg"):
            src = os.path.join("/repo", item)
            if os.path.isdir(src):
                shutil.copytree(src, os.path.join(root, item))
            elif os.path.exists(src):
                shutil.copy(src, root)
        code, out = sh(["patch", "-p1", "-s", "-i", patch], cwd=root)
        if code:
            row["tests"] = "PATCH FAILED " + out[-200:]
            return row
        code, out = sh("timeout 900 /venv/bin/python -m pytest -q -p no:cacheprovider "
                       "--timeout=900 2>&1 | grep -E \"passed|failed|error\" | tail -1", cwd=root)
        row["tests"] = out.strip().splitlines()[-1] if out.strip() else "?"
        os.makedirs(os.path.join(root, "ev"))
        os.makedirs(os.path.join(root, "rp"))
        env = dict(os.environ, USIM_REPO=root, VERIF_EVIDENCE_DIR=os.path.join(root, "ev"),
                   VERIF_REPLAY_DIR=os.path.join(root, "rp"), VERIF_SCALE=SCALE,
                   VERIF_WORKERS="4")
        for prop in PROPS:
            code, out = sh([os.path.join(VERIF, "check"), prop, "--tier", "quick"], env=env)
            if code == 1:
                lines = [l for l in out.splitlines() if "rule=" in l or "VIOLATION" in l]
                row["alarms"][prop] = lines[:4]
                # keep the replay for inspection
                keep = os.path.join("/tmp", "benign_replays", name)
                os.makedirs(keep, exist_ok=True)
                for f in os.listdir(os.path.join(root, "rp")):
                    shutil.copy(os.path.join(root, "rp", f), keep)
            elif code != 0:
                row["errors"][prop] = out.strip().splitlines()[-3:]
        print("done %s: %s alarms=%s errors=%s" % (name, row.get("tests", "?")[:30],
                                                   sorted(row["alarms"]), sorted(row["errors"])),
              flush=True)
        return row
    finally:
        shutil.rmtree(root, ignore_errors=True)


def main():
    names = sys.argv[1:] or sorted(f[:-5] for f in os.listdir(BENIGN) if f.endswith(".diff"))
    jobs = int(os.environ.get("BENIGN_JOBS", "4"))
    with ThreadPoolExecutor(jobs) as pool:
        rows = list(pool.map(evaluate, names))
    for row in rows:
        verdict = "quiet" if not row["alarms"] and not row["errors"] else "ATTENTION"
        print("%-28s %-34s %s" % (row["name"], row.get("tests", "?")[:34], verdict))
        for prop, lines in row["alarms"].items():
            print("    ALARM %s" % prop)
            for line in lines:
                print("       " + line[:200])
        for prop, lines in row["errors"].items():
            print("    ERROR %s: %s" % (prop, " | ".join(lines)[:300]))
    json.dump(rows, open("/tmp/benign_result.json", "w"), indent=1)


if __name__ == "__main__":
    main()
