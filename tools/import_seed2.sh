#!/bin/bash
# tools/import_seed2.sh <worktree-name> <k> <seed-id> <property> <round>
# copy change k of a round-5+ sub-agent (layout <wt>/_seed/<k>/{patch.diff,demo.py,notes.md}) into seeded/<id>/
set -e
WT=/tmp/wt/$1; K=$2; ID=$3; PROP=$4; ROUND=$5
mkdir -p /verif/seeded/$ID
cp $WT/_seed/$K/patch.diff /verif/seeded/$ID/patch.diff
cp $WT/_seed/$K/demo.py /verif/seeded/$ID/demo.py
cp $WT/_seed/$K/notes.md /verif/seeded/$ID/notes.md 2>/dev/null || true
python3 - "$ID" "$PROP" "$ROUND" <<'PY'
import json, sys
ident, prop, rnd = sys.argv[1:4]
notes = ""
try:
    notes = open("/verif/seeded/%s/notes.md" % ident).read().strip()
except OSError:
    pass
json.dump({"property": prop, "needs": "(see notes.md) " + " ".join(notes.split())[:400], "checks": [prop],
           "ran": "tools/seeded.py %s: pinned tests on a scratch copy with the patch, demo.py on clean and patched copy, ./check %s --tier quick with USIM_REPO=<patched copy>" % (ident, prop),
           "origin": "sub-agent given only the property text and a scratch worktree (round %s)" % rnd},
          open("/verif/seeded/%s/meta.json" % ident, "w"), indent=1)
PY
wc -l /verif/seeded/$ID/patch.diff
