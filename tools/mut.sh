#!/bin/bash
# tools/mut.sh <patch-file> <Cxx> [more Cxx...]  - run quick checks against a scratch copy of
# /repo with the patch applied; evidence/replays of these runs go to the scratch dir.
# Also runs the pinned test-suite against the scratch copy (tests copied next to it).
set -u
PATCH=$(realpath "$1"); shift
D=$(mktemp -d /tmp/mut.XXXXXX)
cp -r /repo/usim /repo/usim_pytest /repo/pytest.ini /repo/setup.cfg "$D"/ 2>/dev/null
( cd "$D" && patch -p1 -s < "$PATCH" ) || { echo "PATCH FAILED"; rm -rf "$D"; exit 3; }
if [ "${MUT_TESTS:-1}" = 1 ]; then
  ( cd "$D" && timeout 600 /venv/bin/python -m pytest -q -p no:cacheprovider --timeout=900 -x 2>&1 | tail -1 )
fi
mkdir -p "$D/ev" "$D/rp"
for P in "$@"; do
  USIM_REPO="$D" VERIF_EVIDENCE_DIR="$D/ev" VERIF_REPLAY_DIR="$D/rp" timeout 900 /verif/check "$P" --tier "${MUT_TIER:-quick}" 2>&1 | grep -E "VIOLATION|rule=|HARNESS|KNOWN|quick:|thorough:" | head -8
  echo "[$P exit=${PIPESTATUS[0]}]"
done
rm -rf "$D"
