#!/usr/bin/env python3
"""Regenerate /verif/MANIFEST.json from the property modules (run from /verif)."""
import os
import sys
import json
import importlib

VENV_PYTHON = "/venv/bin/python"
if os.path.realpath(sys.executable) != os.path.realpath(VENV_PYTHON) and os.path.exists(VENV_PYTHON) \
        and not os.environ.get("MKMANIFEST_REEXEC"):
    # the property modules import usim's dependencies: under another interpreter they look
    # "missing" and would be listed as not built (this happened once)
    os.environ["MKMANIFEST_REEXEC"] = "1"
    os.execv(VENV_PYTHON, [VENV_PYTHON] + sys.argv)

sys.path.insert(0, os.path.dirname(os.path.dirname(os.path.abspath(__file__))))
os.environ.setdefault("USIM_REPO", "/repo")

ALL = ["C%02d" % i for i in range(1, 21)]
NOT_APPLICABLE = {
    "C17": "pure predicate over (multiset of exception types, handler specialisation): no "
           "activity, clock, schedule, fault or history takes part, so there is nothing for a "
           "simulator to schedule or to fault; deciding it is exhaustive input enumeration, "
           "which is outside the deterministic-simulation family (DESIGN.md section 4)",
}
PENDING = "check not built yet in this round (planned, see DESIGN.md section 3)"


def main():
    checks, missing = [], []
    for pid in ALL:
        if pid in NOT_APPLICABLE:
            continue
        try:
            P = importlib.import_module("usimdst.props.%s" % pid)
        except ModuleNotFoundError as err:
            if not os.path.exists(os.path.join(os.path.dirname(os.path.dirname(
                    os.path.abspath(__file__))), "usimdst", "props", pid + ".py")):
                missing.append(pid)
                continue
            raise SystemExit("cannot import %s (%s): MANIFEST.json left untouched" % (pid, err))
        checks.append({
            "property_id": pid,
            "quick_cmd": "./check %s --tier quick" % pid,
            "thorough_cmd": "./check %s --tier thorough" % pid,
            "evidence_file": "/verif/evidence/%s.json" % pid,
            "replay_cmd_template": "./check %s --replay {path}" % pid,
            "engine": "usimdst",
            "level_claimed": {
                "category": P.LEVEL,
                "text": P.LEVEL_TEXT,
                "design_ref": "DESIGN.md section 3, %s" % pid,
            },
            "level_note": P.LEVEL_NOTE,
            "technique": P.TECHNIQUE,
        })
    manifest = {
        "version": 1,
        "setup_cmd": "./setup.sh",
        "hooks": {
            "guard": "USIM_VERIF",
            "enable": "no hook is compiled into /repo: the seam wraps Loop._run_coroutine / "
                      "Loop.schedule / Loop.__init__ / Loop.run from outside for the duration of a run, "
                      "and falls back to sys.setprofile (send/throw calls issued by "
                      "usim/_core/loop.py) when Loop has no per-activation method "
                      "(usimdst/seam.py); USIM_VERIF is reserved and unused",
            "baseline_off_cmd": "cd /repo && /venv/bin/python -m pytest -ra -q "
                                "-p no:cacheprovider --timeout=900 "
                                "--continue-on-collection-errors",
            "source_commits": [],
            "add_only": True,
        },
        "engines": [{
            "name": "usimdst",
            "path": "/verif/usimdst",
            "serves_properties": [c["property_id"] for c in checks],
            "kind_free_text": "deterministic simulation with fault injection: seeded scenario "
                              "generator, real usim kernel under a call-through seam, fault "
                              "injection at kernel events, reference-model oracles, JSON "
                              "delta-debug shrinker, replay files",
        }],
        "checks": checks,
        "not_applicable": [{"property_id": pid, "reason": reason}
                           for pid, reason in NOT_APPLICABLE.items()]
        + [{"property_id": pid, "reason": PENDING} for pid in missing],
        "notes": "See DESIGN.md. Exit codes of ./check: 0 held, 1 VIOLATION, 2 HARNESS-ERROR "
                 "(never reported as a violation). Known findings: known_findings.json.",
    }
    with open("MANIFEST.json", "w") as stream:
        json.dump(manifest, stream, indent=1)
    print("checks:", [c["property_id"] for c in checks], "pending:", missing)


if __name__ == "__main__":
    main()
