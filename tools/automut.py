#!/usr/bin/env python3
"""Automatic mutation sweep: which syntactic mutants of usim survive the pinned tests AND the checks?

For every mutant (statement deletion, flipped comparison, negated condition, and<->or, constant
swap, container-end swap) of the files given: write it into a scratch copy of /repo, run the
pinned tests; if they pass, run the quick checks mapped to that file (at VERIF_SCALE, default
0.15) and record whether any check exits 1. Survivors are candidates for blind spots (or
equivalent mutants). Results: JSON lines on stdout / --out file.

usage: tools/automut.py [--files a.py b.py] [--jobs 8] [--out file] [--limit n]"""
import os
import sys
import ast
import copy
import json
import shutil
import argparse
import tempfile
import subprocess
from concurrent.futures import ThreadPoolExecutor

VERIF = os.path.dirname(os.path.dirname(os.path.abspath(__file__)))
REPO = "/repo"
ALWAYS = ["C03"]
SKIP_FUNCTIONS = ("__repr__", "__str__")
MAP = {
    "usim/_core/loop.py": ["C01", "C15", "C20"],
    "usim/_core/waitq.py": ["C01"],
    "usim/_core/handler.py": ["C15"],
    "usim/__init__.py": ["C15", "C07"],
    "usim/_primitives/notification.py": ["C09", "C10", "C08", "C20", "C01"],
    "usim/_primitives/condition.py": ["C08", "C07", "C20"],
    "usim/_primitives/flag.py": ["C08", "C07", "C20"],
    "usim/_primitives/locks.py": ["C09", "C10"],
    "usim/_primitives/timing.py": ["C01", "C14", "C07", "C08", "C20"],
    "usim/_primitives/task.py": ["C06", "C04", "C05", "C16"],
    "usim/_primitives/context.py": ["C04", "C05", "C07", "C06", "C16", "C20"],
    "usim/_basics/streams.py": ["C10", "C11", "C16", "C20"],
    "usim/_basics/resource.py": ["C12", "C08", "C20"],
    "usim/_basics/_resource_level.py": ["C12", "C08"],
    "usim/_basics/tracked.py": ["C08", "C12", "C07", "C20"],
    "usim/_basics/pipe.py": ["C13", "C20"],
    "usim/_concurrent/basics.py": ["C16", "C20"],
    "usim/py/core.py": ["C18", "C19"],
    "usim/py/events.py": ["C18", "C19"],
    "usim/py/_awaitable.py": ["C18"],
    "usim/py/resources/base.py": ["C19"],
    "usim/py/resources/container.py": ["C19"],
    "usim/py/resources/store.py": ["C19"],
    "usim/py/resources/resource.py": ["C19"],
}
CMP_SWAP = {ast.Lt: ast.LtE, ast.LtE: ast.Lt, ast.Gt: ast.GtE, ast.GtE: ast.Gt, ast.Eq: ast.NotEq,
            ast.NotEq: ast.Eq, ast.Is: ast.IsNot, ast.IsNot: ast.Is, ast.In: ast.NotIn,
            ast.NotIn: ast.In}


def is_docstring(node):
    return isinstance(node, ast.Expr) and isinstance(node.value, ast.Constant) \
        and isinstance(node.value.value, str)


def mutants(tree):
    """Yield (description, lineno, mutated tree)."""
    nodes = list(ast.walk(tree))
    skipped = set()
    for node in nodes:
        if isinstance(node, (ast.FunctionDef, ast.AsyncFunctionDef)) and \
                node.name in SKIP_FUNCTIONS:
            skipped.update(id(sub) for sub in ast.walk(node))
        if isinstance(node, ast.If) and isinstance(node.test, ast.Name) and \
                node.test.id == "__debug__":
            skipped.update(id(sub) for sub in ast.walk(node))
    for index, node in enumerate(nodes):
        if id(node) in skipped:
            continue
        # statement deletion
        for field in ("body", "orelse", "finalbody"):
            block = getattr(node, field, None)
            if not isinstance(block, list):
                continue
            for pos, stmt in enumerate(block):
                if is_docstring(stmt) or isinstance(stmt, (ast.FunctionDef, ast.AsyncFunctionDef,
                                                           ast.ClassDef, ast.Import,
                                                           ast.ImportFrom, ast.Pass)):
                    continue
                if isinstance(stmt, (ast.Expr, ast.Assign, ast.AugAssign, ast.Return, ast.Raise,
                                     ast.If, ast.For, ast.While, ast.AnnAssign)):
                    yield ("delete %s" % type(stmt).__name__, stmt.lineno, index, field, pos, "del")
        if isinstance(node, ast.Compare) and len(node.ops) == 1 and type(node.ops[0]) in CMP_SWAP:
            yield ("swap %s" % type(node.ops[0]).__name__, node.lineno, index, None, None, "cmp")
        if isinstance(node, (ast.If, ast.While, ast.IfExp)):
            yield ("negate condition", node.lineno, index, None, None, "neg")
        if isinstance(node, ast.BoolOp):
            yield ("and<->or", node.lineno, index, None, None, "bool")
        if isinstance(node, ast.Constant) and isinstance(node.value, (bool, int)) \
                and not isinstance(node.value, str) and node.value in (0, 1, True, False):
            yield ("constant %r" % node.value, getattr(node, "lineno", 0), index, None, None, "const")
        if isinstance(node, ast.Call) and isinstance(node.func, ast.Attribute) and \
                node.func.attr in ("popleft", "append", "pop"):
            yield ("container end %s" % node.func.attr, node.lineno, index, None, None, "end")


def apply(tree, spec):
    desc, lineno, index, field, pos, kind = spec
    tree = copy.deepcopy(tree)
    node = list(ast.walk(tree))[index]
    if kind == "del":
        block = getattr(node, field)
        block[pos] = ast.copy_location(ast.Pass(), block[pos])
    elif kind == "cmp":
        node.ops[0] = CMP_SWAP[type(node.ops[0])]()
    elif kind == "neg":
        node.test = ast.UnaryOp(op=ast.Not(), operand=node.test)
    elif kind == "bool":
        node.op = ast.Or() if isinstance(node.op, ast.And) else ast.And()
    elif kind == "const":
        value = node.value
        node.value = (not value) if isinstance(value, bool) else (1 - value)
    elif kind == "end":
        attr = node.func.attr
        if attr == "popleft":
            node.func.attr = "pop"
        elif attr == "append":
            if len(node.args) != 1:
                return None
            node.func.attr = "insert" if True else attr
            node.args = [ast.Constant(0)] + node.args
        elif attr == "pop":
            if node.args:
                node.args = []
            else:
                node.args = [ast.Constant(0)]
    ast.fix_missing_locations(tree)
    return tree


def sh(cmd, cwd=None, env=None, timeout=900):
    try:
        proc = subprocess.run(cmd, cwd=cwd, env=env, capture_output=True, text=True,
                              timeout=timeout, shell=isinstance(cmd, str))
        return proc.returncode, proc.stdout + proc.stderr
    except subprocess.TimeoutExpired:
        return 124, "timeout"


def evaluate(job):
    rel, spec, source, scale = job
    desc, lineno = spec[0], spec[1]
    root = tempfile.mkdtemp(prefix="automut.", dir="/tmp")
    try:
        for name in ("usim", "usim_pytest", "pytest.ini", "setup.cfg"):
            src = os.path.join(REPO, name)
            if os.path.isdir(src):
                shutil.copytree(src, os.path.join(root, name))
            elif os.path.exists(src):
                shutil.copy(src, root)
        with open(os.path.join(root, rel), "w") as stream:
            stream.write(source)
        code, out = sh("timeout 120 /venv/bin/python -m pytest -q -x -p no:cacheprovider "
                       "--timeout=60 2>&1 | tail -1", cwd=root, timeout=200)
        result = {"file": rel, "line": lineno, "mutation": desc}
        import re
        if "passed" not in out or re.search(r"\b\d+ (failed|error)", out):
            result["tests"] = "fail"
            return result
        result["tests"] = "pass"
        caught = []
        env = dict(os.environ, USIM_REPO=root, VERIF_EVIDENCE_DIR=os.path.join(root, "ev"),
                   VERIF_REPLAY_DIR=os.path.join(root, "rp"), VERIF_SCALE=str(scale),
                   VERIF_WORKERS="1")
        for check in MAP.get(rel, []) + ALWAYS:
            code, out = sh(["timeout", "600", os.path.join(VERIF, "check"), check, "--tier",
                            "quick"], env=env, timeout=700)
            if code == 1:
                rules = [l.strip()[:140] for l in out.splitlines() if l.strip().startswith("rule=")]
                caught.append((check, rules[0] if rules else ""))
                break
            if code not in (0, 1):
                caught.append((check, "exit %d %s" % (code, out[-200:].replace("\n", " "))))
                break
        result["caught"] = caught
        return result
    finally:
        shutil.rmtree(root, ignore_errors=True)


def main():
    parser = argparse.ArgumentParser()
    parser.add_argument("--files", nargs="*")
    parser.add_argument("--jobs", type=int, default=8)
    parser.add_argument("--out", default="/tmp/automut.jsonl")
    parser.add_argument("--limit", type=int, default=0)
    parser.add_argument("--scale", type=float, default=0.15)
    parser.add_argument("--stride", type=int, default=1)
    args = parser.parse_args()
    files = args.files or sorted(MAP)
    jobs = []
    for rel in files:
        text = open(os.path.join(REPO, rel)).read()
        tree = ast.parse(text)
        baseline = ast.unparse(tree)
        seen = {baseline}
        for spec in mutants(tree):
            mutated = apply(tree, spec)
            if mutated is None:
                continue
            try:
                source = ast.unparse(mutated)
                compile(source, rel, "exec")
            except Exception:
                continue
            if source in seen:
                continue
            seen.add(source)
            jobs.append((rel, spec, source, args.scale))
    jobs = jobs[::args.stride]
    if args.limit:
        jobs = jobs[:args.limit]
    print("%d mutants" % len(jobs), file=sys.stderr)
    done = 0
    with open(args.out, "a") as out, ThreadPoolExecutor(max_workers=args.jobs) as pool:
        for result in pool.map(evaluate, jobs):
            out.write(json.dumps(result) + "\n")
            out.flush()
            done += 1
            if result.get("tests") == "pass" and not result.get("caught"):
                print("SURVIVOR %s:%d %s" % (result["file"], result["line"], result["mutation"]),
                      file=sys.stderr)
    return 0


if __name__ == "__main__":
    sys.exit(main())
