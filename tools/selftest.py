#!/usr/bin/env python3
"""Determinism self-test of the harness: the same seeds, executed in separate interpreters with
different PYTHONHASHSEED (and -O where the family allows), must give identical trace digests.

usage: tools/selftest.py [N per property] [property ...]"""
import os
import sys
import json
import subprocess
from concurrent.futures import ThreadPoolExecutor

VERIF = os.path.dirname(os.path.dirname(os.path.abspath(__file__)))
PROPS = ["C01", "C02", "C03", "C04", "C05", "C06", "C07", "C08", "C09", "C10", "C11", "C12", "C13",
         "C14", "C15", "C16", "C18", "C19", "C20"]
CONFIGS = [("0", ""), ("4242", ""), ("1", "SD")]


def digests(prop, n, hashseed, waitq, seed):
    env = dict(os.environ, PYTHONHASHSEED=hashseed, USIM_REPO=os.environ.get("USIM_REPO", "/repo"))
    if waitq:
        env["USIM_WAITQUEUE"] = waitq
    cmd = ["timeout", "600", "/venv/bin/python", "-m", "usimdst.cli", prop, "--digests", str(n),
           "--seed", str(seed)]
    proc = subprocess.run(cmd, cwd=VERIF, env=env, capture_output=True, text=True)
    for line in proc.stdout.splitlines():
        if line.startswith("DIGESTS "):
            return json.loads(line[8:])
    return "error: " + proc.stdout[-200:] + proc.stderr[-300:]


def main():
    n = int(sys.argv[1]) if len(sys.argv) > 1 else 100
    props = sys.argv[2:] or PROPS
    jobs = [(p, n, h, w, 7) for p in props for h, w in CONFIGS]
    with ThreadPoolExecutor(max_workers=16) as pool:
        results = list(pool.map(lambda job: digests(*job), jobs))
    bad = 0
    for i, prop in enumerate(props):
        ref = results[i * len(CONFIGS)]
        for j in range(1, len(CONFIGS)):
            other = results[i * len(CONFIGS) + j]
            if other != ref:
                bad += 1
                where = "?" if isinstance(ref, str) or isinstance(other, str) else \
                    [k for k, (a, b) in enumerate(zip(ref, other)) if a != b][:5]
                print("NONDETERMINISTIC %s: config %r vs %r differ at cases %s" % (
                    prop, CONFIGS[0], CONFIGS[j], where))
                if isinstance(other, str):
                    print("   ", other)
        print("%s: %d cases x %d configurations %s" % (
            prop, n, len(CONFIGS), "identical" if all(
                results[i * len(CONFIGS) + j] == ref for j in range(len(CONFIGS))) else "DIFFER"))
    return 1 if bad else 0


if __name__ == "__main__":
    sys.exit(main())
