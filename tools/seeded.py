#!/usr/bin/env python3
"""Run every seeded breakage (seeded/<id>/patch.diff) against the checks and rewrite seeded/README.md.

For each: copy /repo to a scratch dir, apply the patch there, run the pinned tests (must pass),
run the demonstration (must fail with the patch, pass without), run the quick check(s) of the
property it breaks (and any extra listed in meta.json "checks") with USIM_REPO pointing at the
scratch copy. Evidence/replays of these runs go to the scratch dir, which is removed afterwards.

usage: tools/seeded.py [id ...]        (env SEEDED_TIER=thorough for the thorough tier)"""
import os
import sys
import json
import shutil
import tempfile
import subprocess

VERIF = os.path.dirname(os.path.dirname(os.path.abspath(__file__)))
SEEDED = os.path.join(VERIF, "seeded")
TIER = os.environ.get("SEEDED_TIER", "quick")


def sh(cmd, cwd=None, env=None, timeout=1800):
    proc = subprocess.run(cmd, cwd=cwd, env=env, capture_output=True, text=True, timeout=timeout,
                          shell=isinstance(cmd, str))
    return proc.returncode, proc.stdout + proc.stderr


def scratch(patch=None):
    root = tempfile.mkdtemp(prefix="seeded.", dir="/tmp")
    for name in ("usim", "usim_pytest", "pytest.ini", "setup.cfg"):
        src = os.path.join("/repo", name)
        if os.path.isdir(src):
            shutil.copytree(src, os.path.join(root, name))
        elif os.path.exists(src):
            shutil.copy(src, root)
    if patch:
        code, out = sh(["patch", "-p1", "-s", "-i", patch], cwd=root)
        if code:
            shutil.rmtree(root)
            raise RuntimeError("patch does not apply: " + out[-300:])
    return root


def evaluate(ident):
    folder = os.path.join(SEEDED, ident)
    meta = json.load(open(os.path.join(folder, "meta.json")))
    patch = os.path.join(folder, "patch.diff")
    row = {"id": ident, "property": meta["property"], "needs": meta.get("needs", "")}
    clean = scratch()
    broken = scratch(patch)
    try:
        code, out = sh("timeout 600 /venv/bin/python -m pytest -q -p no:cacheprovider "
                       "--timeout=900 2>&1 | tail -1", cwd=broken)
        row["tests"] = out.strip().splitlines()[-1] if out.strip() else "?"
        demo = os.path.join(folder, "demo.py")
        for label, root in (("demo_clean", clean), ("demo_broken", broken)):
            shutil.copy(demo, os.path.join(root, "demo_seed.py"))
            code, out = sh("timeout 120 /venv/bin/python demo_seed.py", cwd=root)
            row[label] = code
        caught = {}
        for check in meta.get("checks") or [meta["property"]]:
            env = dict(os.environ, USIM_REPO=broken, VERIF_EVIDENCE_DIR=os.path.join(broken, "ev"),
                       VERIF_REPLAY_DIR=os.path.join(broken, "rp"))
            code, out = sh(["timeout", "3000", os.path.join(VERIF, "check"), check, "--tier", TIER],
                           env=env, timeout=3100)
            rules = [l.strip() for l in out.splitlines() if l.strip().startswith("rule=")]
            caught[check] = {"exit": code, "rule": rules[0][:160] if rules else ""}
        row["caught"] = caught
    finally:
        shutil.rmtree(clean, ignore_errors=True)
        shutil.rmtree(broken, ignore_errors=True)
    return row


def main():
    idents = sys.argv[1:] or sorted(d for d in os.listdir(SEEDED)
                                    if os.path.isdir(os.path.join(SEEDED, d)))
    rows = []
    obsolete = []
    for ident in idents:
        meta = json.load(open(os.path.join(SEEDED, ident, "meta.json")))
        if meta.get("obsolete"):
            obsolete.append((ident, meta["property"], meta["obsolete"]))
            print(ident, "obsolete:", meta["obsolete"])
            continue
        try:
            row = evaluate(ident)
        except RuntimeError as err:
            print(ident, "NOT EVALUATED:", str(err)[:200])
            continue
        rows.append(row)
        verdict = {c: ("CAUGHT" if v["exit"] == 1 else "missed(exit %d)" % v["exit"])
                   for c, v in row["caught"].items()}
        print(ident, row["tests"], "demo clean/broken exit:", row["demo_clean"], row["demo_broken"],
              verdict)
        for check, v in row["caught"].items():
            if v["rule"]:
                print("    ", check, v["rule"])
    # results of earlier evaluations are kept in seeded/results.json, so that evaluating a few ids
    # regenerates the whole table
    store = os.path.join(SEEDED, "results.json")
    try:
        kept = json.load(open(store))
    except (OSError, ValueError):
        kept = {}
    for row in rows:
        kept[row["id"]] = row
    for ident, _, _ in obsolete:
        kept.pop(ident, None)
    with open(store, "w") as out:
        json.dump(kept, out, indent=1, sort_keys=True)
    known_obsolete = []
    for ident in sorted(d for d in os.listdir(SEEDED) if os.path.isdir(os.path.join(SEEDED, d))):
        meta = json.load(open(os.path.join(SEEDED, ident, "meta.json")))
        if meta.get("obsolete"):
            known_obsolete.append((ident, meta["property"], meta["obsolete"]))
    obsolete = known_obsolete
    rows = [kept[key] for key in sorted(kept)]
    if True:
        with open(os.path.join(SEEDED, "README.md"), "w") as out:
            out.write("# Seeded breakages (written by sub-agents from the property text only)\n\n"
                      "Regenerated by `tools/seeded.py` (tier: %s). Each patch passes the pinned "
                      "tests; its demo passes on the clean tree and fails with the patch.\n\n" % TIER)
            out.write("| id | property | needs to manifest | pinned tests | demo clean / broken | "
                      "checks (exit 1 = caught) |\n|---|---|---|---|---|---|\n")
            for row in rows:
                checks = "; ".join("%s: %s %s" % (c, "caught" if v["exit"] == 1 else
                                                   "MISSED (exit %d)" % v["exit"],
                                                   v["rule"].replace("|", "/")[:110])
                                   for c, v in row["caught"].items())
                out.write("| %s | %s | %s | %s | %s / %s | %s |\n" % (
                    row["id"], row["property"], row["needs"].replace("|", "/"), row["tests"],
                    row["demo_clean"], row["demo_broken"], checks))
            for ident, prop, why in obsolete:
                out.write("| %s | %s | obsolete: %s | - | - | - |\n" % (ident, prop, why))
    return 0


if __name__ == "__main__":
    sys.exit(main())
